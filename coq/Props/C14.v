(* Props/C14.v -- property C14: the physical model is invariant under the
   property mapping; the chain rule is exact; validation acts on conductivities.
   ONLY statements, each closed by [exact] of a lemma from Proofs/Maps.v, with
   Print Assumptions beneath.

   forward_M / backward_M / chain_M are Gen/MapsMap.v: regenerated from the
   Map* classes of emg3d/maps.py on every run (np.log10 x = ln x / ln 10,
   10**x = exp (x * ln 10)); chain_M is the factor derivative_chain multiplies
   the gradient with, as a function of the mapped value.  [forward m],
   [backward m], [chain m] (Model/Maps.v) dispatch on the map.  Numbers are
   Coq's classical reals; rounding / overflow of floats is not modelled. *)
From Coq Require Import Reals ZArith Bool List String QArith.
From Coquelicot Require Import Coquelicot.
From V Require Import Base.FieldSig Base.ExecQ Model.VolumeModel Gen.MapsMap Model.Maps Proofs.Maps
     Gen.MapsSetter Model.MapsSetter Proofs.MapsSetter Model.GradGlue Proofs.GradGlue.
Import ListNotations.
Local Open Scope R_scope.

(* ---- 1. back and forth is the identity on positive conductivities ---------- *)
Theorem backward_forward_all (m : mapid) (sigma : R) :
  0 < sigma -> backward m (forward m sigma) = sigma.
Proof. exact (backward_forward m sigma). Qed.
Print Assumptions backward_forward_all.

Theorem backward_forward_Conductivity s : 0 < s -> backward_Conductivity (forward_Conductivity s) = s.
Proof. exact (backward_forward MConductivity s). Qed.
Print Assumptions backward_forward_Conductivity.
Theorem backward_forward_LgConductivity s : 0 < s -> backward_LgConductivity (forward_LgConductivity s) = s.
Proof. exact (backward_forward MLgConductivity s). Qed.
Print Assumptions backward_forward_LgConductivity.
Theorem backward_forward_LnConductivity s : 0 < s -> backward_LnConductivity (forward_LnConductivity s) = s.
Proof. exact (backward_forward MLnConductivity s). Qed.
Print Assumptions backward_forward_LnConductivity.
Theorem backward_forward_Resistivity s : 0 < s -> backward_Resistivity (forward_Resistivity s) = s.
Proof. exact (backward_forward MResistivity s). Qed.
Print Assumptions backward_forward_Resistivity.
Theorem backward_forward_LgResistivity s : 0 < s -> backward_LgResistivity (forward_LgResistivity s) = s.
Proof. exact (backward_forward MLgResistivity s). Qed.
Print Assumptions backward_forward_LgResistivity.
Theorem backward_forward_LnResistivity s : 0 < s -> backward_LnResistivity (forward_LnResistivity s) = s.
Proof. exact (backward_forward MLnResistivity s). Qed.
Print Assumptions backward_forward_LnResistivity.

(* the other direction, on every mapped value that denotes a positive
   conductivity (all reals for the log maps, x > 0 for the linear ones) *)
Theorem forward_backward_all (m : mapid) (x : R) :
  0 < backward m x -> forward m (backward m x) = x.
Proof. exact (forward_backward m x). Qed.
Print Assumptions forward_backward_all.

Theorem backward_positive (m : mapid) (x : R) :
  (map_is_log m = true \/ 0 < x) -> 0 < backward m x.
Proof. exact (backward_pos m x). Qed.
Print Assumptions backward_positive.

Example roundtrip_nonvacuous :
  backward MLgResistivity (forward MLgResistivity 3) = 3 /\
  forward MLnConductivity (backward MLnConductivity (-7)) = -7.
Proof. exact roundtrip_example. Qed.
Print Assumptions roundtrip_nonvacuous.

(* ---- 2. the gradient factor IS d(conductivity)/d(mapped parameter) --------- *)
Theorem chain_is_derivative_all (m : mapid) (x : R) :
  (m = MResistivity -> x <> 0) -> is_derive (backward m) x (chain m x).
Proof. exact (chain_is_derivative m x). Qed.
Print Assumptions chain_is_derivative_all.

Theorem chain_is_derivative_Conductivity x : is_derive backward_Conductivity x (chain_Conductivity x).
Proof. exact (chain_is_derivative MConductivity x ltac:(discriminate)). Qed.
Print Assumptions chain_is_derivative_Conductivity.
Theorem chain_is_derivative_LgConductivity x : is_derive backward_LgConductivity x (chain_LgConductivity x).
Proof. exact (chain_is_derivative MLgConductivity x ltac:(discriminate)). Qed.
Print Assumptions chain_is_derivative_LgConductivity.
Theorem chain_is_derivative_LnConductivity x : is_derive backward_LnConductivity x (chain_LnConductivity x).
Proof. exact (chain_is_derivative MLnConductivity x ltac:(discriminate)). Qed.
Print Assumptions chain_is_derivative_LnConductivity.
Theorem chain_is_derivative_Resistivity x : x <> 0 -> is_derive backward_Resistivity x (chain_Resistivity x).
Proof. exact (fun H => chain_is_derivative MResistivity x (fun _ => H)). Qed.
Print Assumptions chain_is_derivative_Resistivity.
Theorem chain_is_derivative_LgResistivity x : is_derive backward_LgResistivity x (chain_LgResistivity x).
Proof. exact (chain_is_derivative MLgResistivity x ltac:(discriminate)). Qed.
Print Assumptions chain_is_derivative_LgResistivity.
Theorem chain_is_derivative_LnResistivity x : is_derive backward_LnResistivity x (chain_LnResistivity x).
Proof. exact (chain_is_derivative MLnResistivity x ltac:(discriminate)). Qed.
Print Assumptions chain_is_derivative_LnResistivity.

(* what derivative_chain is used for: a gradient g of any misfit phi with
   respect to conductivity becomes g * chain with respect to the mapped value *)
Theorem gradient_conversion_exact (m : mapid) (phi : R -> R) (x g : R) :
  (m = MResistivity -> x <> 0) ->
  is_derive phi (backward m x) g ->
  is_derive (fun y => phi (backward m y)) x (g * chain m x).
Proof. exact (chain_rule_gradient m phi x g). Qed.
Print Assumptions gradient_conversion_exact.

(* ---- 3. solver coefficients do not depend on the parametrisation ----------- *)
(* eta_x, eta_y, eta_z, zeta of a cell (Model/VolumeModel.v, tied to
   emg3d.models.VolumeModel by correspondence) computed from the six
   parametrisations of the same conductivities coincide; any anisotropy case,
   with or without mu_r / epsilon_r, any coefficient field F (C: frequency
   domain, R: Laplace domain) with any embedding inj of the reals. *)
Theorem coefficients_invariant {F : Type} {O : FOps F} (inj : R -> F)
        (smu0 sval eps0 : F) (m1 m2 : mapid) (case : Z) (has_eps has_mu : bool)
        (vol epsr mur : F) (sx sy sz : R) :
  0 < sx -> 0 < sy -> 0 < sz ->
  cell_coeffs inj smu0 sval eps0 m1 case has_eps has_mu vol epsr mur
              (forward m1 sx) (forward m1 sy) (forward m1 sz)
  = cell_coeffs inj smu0 sval eps0 m2 case has_eps has_mu vol epsr mur
              (forward m2 sx) (forward m2 sy) (forward m2 sz).
Proof. exact (coeffs_invariant inj smu0 sval eps0 m1 m2 case has_eps has_mu vol epsr mur sx sy sz). Qed.
Print Assumptions coefficients_invariant.

Theorem coefficients_are_those_of_conductivity {F : Type} {O : FOps F} (inj : R -> F)
        (smu0 sval eps0 : F) (m : mapid) (case : Z) (has_eps has_mu : bool)
        (vol epsr mur : F) (sx sy sz : R) :
  0 < sx -> 0 < sy -> 0 < sz ->
  cell_coeffs inj smu0 sval eps0 m case has_eps has_mu vol epsr mur
              (forward m sx) (forward m sy) (forward m sz)
  = cell_coeffs inj smu0 sval eps0 MConductivity case has_eps has_mu vol epsr mur sx sy sz.
Proof. exact (coeffs_of_forward inj smu0 sval eps0 m case has_eps has_mu vol epsr mur sx sy sz). Qed.
Print Assumptions coefficients_are_those_of_conductivity.

(* mapping selection by name: exactly the six names, each selects its map *)
Theorem map_selection (m : mapid) (s : string) :
  map_of_name (map_name m) = Some m /\ (map_of_name s = Some m -> map_name m = s).
Proof. exact (conj (map_of_name_name m) (map_of_name_sound s m)). Qed.
Print Assumptions map_selection.

(* ---- 4. validation ---------------------------------------------------------- *)
(* _check_positive_finite over the reals: accepted iff the attribute is not
   None and every cell is a finite number whose CONDUCTIVITY (property_x/y/z:
   backward of the value; mu_r, epsilon_r: the value itself) is positive. *)
Theorem validation_spec (m : mapid) attr (p : pname) (values : list (xval R)) :
  check_pf Rpos0 Risz backward no_ovf 0 m attr p values = None <->
  attr <> Some None /\
  List.Forall (fun v => exists x, xreal v = Some x /\ 0 < checked_value m p x) values.
Proof. exact (check_pf_R m attr p values). Qed.
Print Assumptions validation_spec.

(* the same for any number type with decidable sign / zero test (this is the
   statement the executable Q instance of the correspondence falls under) *)
Theorem validation_spec_generic {F : Type} (pos0 isz : F -> bool) (bwF : mapid -> F -> F)
        (ovf : mapid -> F -> option (xval F)) (zero : F) (Hz : pos0 zero = false) m attr p values :
  check_pf pos0 isz bwF ovf zero m attr p values = None <->
  attr <> Some None /\ List.Forall (accepts pos0 isz bwF ovf zero m p) values.
Proof. exact (check_pf_accepts pos0 isz bwF ovf zero Hz m attr p values). Qed.
Print Assumptions validation_spec_generic.

(* the executable instance replaces backward of the four log/exp maps by the
   constant 1: acceptance only depends on the sign, which is positive *)
Theorem validation_exec_instance_sound m attr p values :
  check_pf Rpos0 Risz backward no_ovf 0 m attr p values
  = check_pf Rpos0 Risz
      (fun m x => match m with
                  | MConductivity => backward MConductivity x
                  | MResistivity => backward MResistivity x
                  | _ => 1 end) no_ovf 0 m attr p values.
Proof. exact (check_pf_exec_sign m attr p values). Qed.
Print Assumptions validation_exec_instance_sound.

(* construction: a model exists iff the map name is known and every given
   property passes the check above (model_valid) *)
Theorem construction_spec mapping x y z mu eps (md : model (F:=R)) :
  model_init Rpos0 Risz backward no_ovf 0 mapping x y z mu eps = inl md <->
  exists m, map_of_name mapping = Some m /\ md = mkModel m x y z mu eps /\
            model_valid Rpos0 Risz backward no_ovf 0 md.
Proof. exact (model_init_spec Rpos0 Risz backward no_ovf 0 Rpos0_zero mapping x y z mu eps md). Qed.
Print Assumptions construction_spec.

(* assignment: succeeds iff the property was initiated and the new values pass *)
Theorem assignment_spec (md : model (F:=R)) p vs md' :
  model_set Rpos0 Risz backward no_ovf 0 md p vs = inl md' <->
  get_prop md p <> None /\
  List.Forall (accepts Rpos0 Risz backward no_ovf 0 (m_map md) p) vs /\
  md' = set_prop md p (Some vs).
Proof. exact (model_set_spec Rpos0 Risz backward no_ovf 0 Rpos0_zero md p vs md'). Qed.
Print Assumptions assignment_spec.

(* augmented assignment (model.p *= k, += k, -= k, /= k): accepted exactly when
   plain assignment of the resulting values would be; the stored array holds the
   resulting values either way (numpy operates in place before the setter runs);
   on a None property the operator raises TypeError *)
Theorem augmented_assignment_spec (md : model (F:=R)) p vs :
  (snd (model_aug Rpos0 Risz backward no_ovf 0 md p vs) = None <->
   get_prop md p <> None /\
   List.Forall (accepts Rpos0 Risz backward no_ovf 0 (m_map md) p) vs) /\
  (get_prop md p <> None ->
   fst (model_aug Rpos0 Risz backward no_ovf 0 md p vs) = set_prop md p (Some vs)) /\
  (get_prop md p = None ->
   model_aug Rpos0 Risz backward no_ovf 0 md p vs = (md, Some ErrType)).
Proof. exact (model_aug_spec Rpos0 Risz backward no_ovf 0 Rpos0_zero md p vs). Qed.
Print Assumptions augmented_assignment_spec.

Theorem none_property_cannot_be_set (md : model (F:=R)) p vs :
  get_prop md p = None -> model_set Rpos0 Risz backward no_ovf 0 md p vs = inr ErrNone.
Proof. exact (none_cannot_be_set Rpos0 Risz backward no_ovf 0 md p vs). Qed.
Print Assumptions none_property_cannot_be_set.

(* every model reachable by construction and any sequence of successful
   assignments holds only positive finite conductivities / mu_r / epsilon_r,
   and keeps its anisotropy case and map *)
Theorem assignment_preserves_validity (md : model (F:=R)) p vs md' :
  model_valid Rpos0 Risz backward no_ovf 0 md ->
  model_set Rpos0 Risz backward no_ovf 0 md p vs = inl md' ->
  model_valid Rpos0 Risz backward no_ovf 0 md' /\ case_of md' = case_of md /\ m_map md' = m_map md.
Proof. exact (model_set_preserves Rpos0 Risz backward no_ovf 0 Rpos0_zero md p vs md'). Qed.
Print Assumptions assignment_preserves_validity.

(* non-vacuity, on the executable instance *)
Example validation_examples :
  check_pf_Q MResistivity None PX [Fin (2#1); Fin (1#4)]%Q = None /\
  check_pf_Q MResistivity None PX [Fin (2#1); Fin 0]%Q = Some ErrFinite /\
  check_pf_Q MResistivity None PX [Fin (2#1); PInf]%Q = Some ErrPositive /\
  check_pf_Q MLgConductivity None PX [Fin (-3#1); NInf]%Q = Some ErrPositive /\
  check_pf_Q MLgConductivity None PX [Fin (-3#1); Fin 0]%Q = None /\
  check_pf_Q MConductivity None PMu [Fin (-3#1)]%Q = Some ErrPositive /\
  check_pf_Q MConductivity (Some None) PY [Fin (3#1)]%Q = Some ErrNone /\
  (* float range: 10**400 = inf, 10**-400 = 0.0, exp(-800) = 0.0, 10**300 is fine *)
  check_pf_Q MLgConductivity None PX [Fin (400#1)]%Q = Some ErrFinite /\
  check_pf_Q MLgConductivity None PX [Fin (-400#1)]%Q = Some ErrPositive /\
  check_pf_Q MLnResistivity None PZ [Fin (800#1)]%Q = Some ErrPositive /\
  check_pf_Q MLgResistivity None PY [Fin (300#1)]%Q = None.
Proof. exact validation_examples_Q. Qed.
Print Assumptions validation_examples.

(* ---- 5. fault path of a refused assignment; validity along histories (round 6) -- *)
(* [set_param md p vs] interprets the event list of the setter of p AS IT STANDS IN
   emg3d/models.py (Gen/MapsSetter.v, re-extracted on every run: check / store in
   source order; a failing event ends the call and nothing is rolled back).  It
   behaves as the specification setter: check first, store only when accepted. *)
Theorem setters_check_before_store (md : model (F:=R)) p vs :
  set_param Rpos0 Risz backward no_ovf 0 md p vs
  = match model_set Rpos0 Risz backward no_ovf 0 md p vs with
    | inl md' => (md', None)
    | inr e => (md, Some e)
    end.
Proof. exact (set_param_is_spec Rpos0 Risz backward no_ovf 0 md p vs). Qed.
Print Assumptions setters_check_before_store.

(* a refused assignment (any error: non-positive, non-finite, None property) leaves
   EVERY stored parameter as it was *)
Theorem rejected_assignment_leaves_model_unchanged (md : model (F:=R)) p vs :
  snd (set_param Rpos0 Risz backward no_ovf 0 md p vs) <> None ->
  fst (set_param Rpos0 Risz backward no_ovf 0 md p vs) = md.
Proof. exact (set_param_rejected_unchanged Rpos0 Risz backward no_ovf 0 md p vs). Qed.
Print Assumptions rejected_assignment_leaves_model_unchanged.

(* the same for any number type (the executable Q instance falls under it) *)
Theorem rejected_assignment_leaves_model_unchanged_generic {F : Type} (pos0 isz : F -> bool)
        (bwF : mapid -> F -> F) (ovf : mapid -> F -> option (xval F)) (zero : F)
        (md : model (F:=F)) p vs :
  snd (set_param pos0 isz bwF ovf zero md p vs) <> None ->
  fst (set_param pos0 isz bwF ovf zero md p vs) = md.
Proof. exact (set_param_rejected_unchanged pos0 isz bwF ovf zero md p vs). Qed.
Print Assumptions rejected_assignment_leaves_model_unchanged_generic.

(* accepted exactly when the property was initiated and every cell passes; then the
   values are stored *)
Theorem set_param_acceptance (md : model (F:=R)) p vs :
  (snd (set_param Rpos0 Risz backward no_ovf 0 md p vs) = None <->
   get_prop md p <> None /\
   List.Forall (accepts Rpos0 Risz backward no_ovf 0 (m_map md) p) vs) /\
  (snd (set_param Rpos0 Risz backward no_ovf 0 md p vs) = None ->
   fst (set_param Rpos0 Risz backward no_ovf 0 md p vs) = set_prop md p (Some vs)).
Proof. exact (set_param_spec Rpos0 Risz backward no_ovf 0 Rpos0_zero md p vs). Qed.
Print Assumptions set_param_acceptance.

(* any history of refused plain assignments is the identity on the model *)
Theorem refused_assignments_are_identity (md : model (F:=R)) ops :
  List.Forall is_set ops ->
  List.Forall (fun e => e <> None) (outcomes Rpos0 Risz backward no_ovf 0 md ops) ->
  run_ops Rpos0 Risz backward no_ovf 0 md ops = md /\
  List.Forall (fun m => m = md) (trace Rpos0 Risz backward no_ovf 0 md ops).
Proof. exact (refused_history_identity Rpos0 Risz backward no_ovf 0 ops md). Qed.
Print Assumptions refused_assignments_are_identity.

(* INVARIANT, by induction over operation sequences: the constructed model and the
   model after EVERY operation of any history -- plain assignments accepted or
   refused, augmented assignments `model.p op= k` that are not refused by the
   validation (aug_clean; see below) -- holds only finite cells with positive
   back-mapped conductivity / mu_r / epsilon_r, and keeps anisotropy case and map *)
Theorem reachable_models_positive_finite mapping x y z mu eps (md0 : model (F:=R)) ops :
  model_init Rpos0 Risz backward no_ovf 0 mapping x y z mu eps = inl md0 ->
  aug_clean Rpos0 Risz backward no_ovf 0 md0 ops ->
  List.Forall (fun m => model_pos_finite m /\ case_of m = case_of md0 /\ m_map m = m_map md0)
              (md0 :: trace Rpos0 Risz backward no_ovf 0 md0 ops).
Proof. exact (reachable_pos_finite mapping x y z mu eps md0 ops). Qed.
Print Assumptions reachable_models_positive_finite.

Theorem history_preserves_validity (md : model (F:=R)) ops :
  model_valid Rpos0 Risz backward no_ovf 0 md ->
  aug_clean Rpos0 Risz backward no_ovf 0 md ops ->
  model_valid Rpos0 Risz backward no_ovf 0 (run_ops Rpos0 Risz backward no_ovf 0 md ops) /\
  same_frame md (run_ops Rpos0 Risz backward no_ovf 0 md ops).
Proof. exact (run_ops_valid Rpos0 Risz backward no_ovf 0 Rpos0_zero ops md). Qed.
Print Assumptions history_preserves_validity.

(* non-vacuity on the executable instance: refused assignments of every kind
   (10**-400 = 0, 10**400 = inf, nan, -inf, mu_r = 0, mu_r = inf, None property)
   return the model unchanged; an accepted one stores.  The last two conjuncts are
   why aug_clean is needed: a REFUSED AUGMENTED assignment `model.mu_r *= -1` has
   already changed the stored array (numpy operates in place before the setter
   runs; the setter cannot undo it) and the model then holds values its own check
   refuses. *)
Example fault_path_examples :
  (set_param_Q ex_md PX [Fin (2#1); Fin (400#1)] = (ex_md, Some ErrPositive) /\
   set_param_Q ex_md PX [Fin (2#1); Fin (-400#1)] = (ex_md, Some ErrFinite) /\
   set_param_Q ex_md PZ [NaN; Fin (1#1)] = (ex_md, Some ErrPositive) /\
   set_param_Q ex_md PZ [Fin (1#1); NInf] = (ex_md, Some ErrFinite) /\
   set_param_Q ex_md PMu [Fin (1#1); Fin (0#1)] = (ex_md, Some ErrPositive) /\
   set_param_Q ex_md PMu [Fin (1#1); PInf] = (ex_md, Some ErrFinite) /\
   set_param_Q ex_md PY [Fin (1#1); Fin (1#1)] = (ex_md, Some ErrNone) /\
   set_param_Q ex_md PX [Fin (5#1); Fin (-300#1)]
     = (set_prop ex_md PX (Some [Fin (5#1); Fin (-300#1)]), None) /\
   step_Q ex_md (OpAug PMu [Fin (-3#2); Fin (-2#1)])
     = (set_prop ex_md PMu (Some [Fin (-3#2); Fin (-2#1)]), Some ErrPositive) /\
   check_pf_Q MLgResistivity None PMu [Fin (-3#2); Fin (-2#1)] = Some ErrPositive)%Q.
Proof. exact fault_path_examples_Q. Qed.
Print Assumptions fault_path_examples.

(* ------------------------------------------------------------------------ *)
(* Round 7: the GLUE in Simulation.gradient / jtvec / jvec.  The array handed to
   map.derivative_chain has one row per independent direction of the anisotropy
   case (rows_of); the code converts the row of direction d with property_d, selected
   BY NAME (glue_by_name; anchored on simulations.py by anchor_gradient_glue and
   compared with real Simulations for every case by stream (h)).  For EVERY case,
   mapping and row: row k of the result is row k of the conductivity gradient times
   chain(m)(property of direction k), and that is the derivative of the objective with
   respect to the mapped parameter of direction k. *)
Theorem gradient_row_converted_with_its_own_property
  m c prop g k d gk (phi : R -> R) :
  nth_error (rows_of c) k = Some d -> nth_error g k = Some gk ->
  (m = MResistivity -> prop d <> 0) ->
  is_derive phi (backward m (prop d)) gk ->
  exists r, nth_error (glue_by_name m c prop g) k = Some r /\
            r = gk * chain m (prop d) /\
            is_derive (fun y => phi (backward m y)) (prop d) r.
Proof. exact (glue_row_is_mapped_derivative m c prop g k d gk phi). Qed.
Print Assumptions gradient_row_converted_with_its_own_property.

Theorem gradient_rows_are_the_given_directions c :
  NoDup (rows_of c) /\ forall d, In d (rows_of c) <-> given c d = true.
Proof. exact (conj (rows_nodup c) (rows_are_given c)). Qed.
Print Assumptions gradient_rows_are_the_given_directions.

(* pairing the rows BY POSITION with [property_x; property_y or x; property_z or x]
   is the same thing in the isotropic, HTI and triaxial cases ... *)
Theorem positional_pairing_agrees_off_VTI m c prop g :
  c <> CVTI -> List.length g = List.length (rows_of c) ->
  glue_by_position m c prop g = glue_by_name m c prop g.
Proof. exact (position_agrees_off_VTI m c prop g). Qed.
Print Assumptions positional_pairing_agrees_off_VTI.

(* ... and wrong for VTI (row 1 is z, entry 1 of the list is the y-fallback property_x):
   Resistivity, rho_h = 1, rho_v = 2, conductivity gradient (1, 1): required -1/4, positional -1.
   This witness is also the non-vacuity example of the first theorem. *)
Theorem positional_pairing_refuted :
  exists m c prop g k d,
    nth_error (rows_of c) k = Some d /\
    nth_error (glue_by_position m c prop g) k = Some (-1) /\
    nth_error (glue_by_name m c prop g) k = Some (-(1/4)).
Proof. exact position_refuted. Qed.
Print Assumptions positional_pairing_refuted.
