(* Props/C10.v -- property C10: sources inject exactly their nominal moment in
   their nominal direction.  ONLY statements, each closed by [exact] of a lemma
   from Proofs/Source.v or Proofs/SourceAlg.v, with Print Assumptions beneath.

   Model/Source.v is a hand model of fields._dipole_vector / _point_vector /
   get_source_field and of the electrodes conversion functions; it is tied to
   the source by correspondence (py/props/c10.py).  The order-dependent part is
   stated over Coq's reals (every float is a rational, so every input the
   implementation can be given is covered; rounding of intermediate results and
   np.round(., 9) are not modelled).  Grids have ANY number of cells.

   [clamp] = false is the code as pinned, true the proposed repair of
   min_max_ind.  [seg_upper_ok clamp G p0 p1]: clamp = true, or in every
   direction the segment has extent or lies strictly below the last node. *)
From Coq Require Import ZArith List Bool Reals Lra Field QArith.
From V Require Import Base.FieldSig Base.Arr Base.ExecQ Model.Source Proofs.Source Proofs.SourceAlg.
From V Require Import Model.SourceHist Proofs.SourceHist.
Local Open Scope R_scope.

(* ---- cell_spread_unity: (ey+ry)(ez+rz) = 1, any field ---- *)
Theorem cell_spread_unity {F} {FO : FOps F}
  (Fth : field_theory F0 F1 Fadd Fmul Fsub Fopp Fdiv Finv (@eq F)) (r1 r2 xl : F) :
  ((1 - r1) * (1 - r2) * xl + r1 * (1 - r2) * xl + (1 - r1) * r2 * xl + r1 * r2 * xl = xl)%F.
Proof. exact (spread_unity Fth r1 r2 xl). Qed.
Print Assumptions cell_spread_unity.

(* ---- clip_partition, 1-D: sum_i |[a,b] /\ [t_i,t_{i+1}]| = |[a,b] /\ [t_m,t_n]|
        for a monotone node vector of ANY length (both orientations) ---- *)
Theorem clip_partition_1d_up (t : Z -> R) a b m n : (m <= n)%Z ->
  (forall i, (m <= i < n)%Z -> t i <= t (i + 1)%Z) ->
  lsum (fun i => ilen (Rmax a (t i)) (Rmin b (t (i + 1)%Z))) (zrange m n)
  = ilen (Rmax a (t m)) (Rmin b (t n)).
Proof. exact (chain_inc t a b m n). Qed.
Print Assumptions clip_partition_1d_up.

Theorem clip_partition_1d_down (t : Z -> R) a b m n : (m <= n)%Z ->
  (forall i, (m <= i < n)%Z -> t (i + 1)%Z <= t i) ->
  lsum (fun i => ilen (Rmax a (t (i + 1)%Z)) (Rmin b (t i))) (zrange m n)
  = ilen (Rmax a (t n)) (Rmin b (t m)).
Proof. exact (chain_dec t a b m n). Qed.
Print Assumptions clip_partition_1d_down.

(* ---- the guard `min(rx,ex,ry,ey,rz,ez) >= 0 and |ar-al| > 0` holds exactly
        when the cell meets the segment in positive length ---- *)
Theorem guard_iff_positive_length G p0 p1 ix iy iz : cell_ok G p0 p1 (ix, iy, iz) ->
  let al := cell_al Rleb G p0 p1 ix iy iz in
  let ar := cell_ar Rleb G p0 p1 ix iy iz in
  cell_guard Rleb (rfrac (gx G) (px p0) (px p1) al ar ix) (rfrac (gy G) (py p0) (py p1) al ar iy)
             (rfrac (gz G) (pz p0) (pz p1) al ar iz) al ar = true <-> al < ar.
Proof. exact (cell_guard_pos G p0 p1 ix iy iz). Qed.
Print Assumptions guard_iff_positive_length.

(* ---- clip_partition, lifted: before normalisation every component of a
        segment's vector sums to exactly 1 ---- *)
Theorem clip_partition clamp G p0 p1 c :
  grid_ok G -> inside G p0 -> inside G p1 -> seg_upper_ok clamp G p0 p1 ->
  (c = 0 \/ c = 1 \/ c = 2)%Z -> csum c (seg_raw Rleb clamp G p0 p1) = 1.
Proof. intros HG H0 H1 HU. exact (seg_raw_sum clamp G p0 p1 HG H0 H1 HU c). Qed.
Print Assumptions clip_partition.

(* ---- dipole_moment: per component the vector sums to p1 - p0 ---- *)
Theorem dipole_moment clamp G p0 p1 c :
  grid_ok G -> inside G p0 -> inside G p1 -> seg_upper_ok clamp G p0 p1 ->
  (c = 0 \/ c = 1 \/ c = 2)%Z ->
  csum c (seg_vec Rleb clamp G p0 p1) = pcomp c p1 - pcomp c p0.
Proof. intros HG H0 H1 HU. exact (seg_vec_sum clamp G p0 p1 HG H0 H1 HU c). Qed.
Print Assumptions dipole_moment.

(* ---- normalisation_guard_inactive: 'Normalizing Source' never fires ---- *)
Theorem normalisation_guard_inactive clamp G p0 p1 :
  grid_ok G -> inside G p0 -> inside G p1 -> seg_upper_ok clamp G p0 p1 ->
  seg_stat Rleb clamp G p0 p1 = (0, 0, 0)%Z.
Proof. exact (seg_stat_zero clamp G p0 p1). Qed.
Print Assumptions normalisation_guard_inactive.

(* ---- wire_moment: any number of electrodes; telescopes to last - first;
        the function's own inside/zero-length tests are part of the model ---- *)
Theorem wire_moment clamp G pts l st c d :
  grid_ok G -> (c = 0 \/ c = 1 \/ c = 2)%Z ->
  (forall s, In s (segs pts) -> seg_upper_ok clamp G (fst s) (snd s)) ->
  dipole_vector Rleb clamp G pts = SOk l st ->
  csum c l = pcomp c (last pts d) - pcomp c (hd d pts) /\ Forall (fun t => t = (0, 0, 0)%Z) st.
Proof. exact (wire_sum clamp G pts l st c d). Qed.
Print Assumptions wire_moment.

(* ---- support_in_touched_cells: every written entry is one of the 12 edges
        of a cell of the grid that contains a point of the wire ---- *)
Theorem support_in_touched_cells clamp G pts l st e :
  grid_ok G -> (forall s, In s (segs pts) -> seg_upper_ok clamp G (fst s) (snd s)) ->
  dipole_vector Rleb clamp G pts = SOk l st -> In e l ->
  exists s ix iy iz t, In s (segs pts) /\
    (0 <= ix < an (gx G))%Z /\ (0 <= iy < an (gy G))%Z /\ (0 <= iz < an (gz G))%Z /\
    edge_of_cell e ix iy iz /\ 0 <= t <= 1 /\
    in_cell G (px (fst s) + t * (px (snd s) - px (fst s))) (py (fst s) + t * (py (snd s) - py (fst s)))
              (pz (fst s) + t * (pz (snd s) - pz (fst s))) ix iy iz.
Proof. exact (wire_support clamp G pts l st e). Qed.
Print Assumptions support_in_touched_cells.

(* ---- the pinned code refutes the moment clause on the upper boundary ---- *)
Theorem dipole_on_upper_boundary_refuted :
  outside Qle_bool wit_grid wit_p0 = false /\ outside Qle_bool wit_grid wit_p1 = false /\
  seg_cells Qle_bool false wit_grid wit_p0 wit_p1 = nil /\
  stat_of (dipole_vector Qle_bool false wit_grid (wit_p0 :: wit_p1 :: nil)) = ((2, 2, 2)%Z :: nil).
Proof. exact upper_boundary_refuted. Qed.
Print Assumptions dipole_on_upper_boundary_refuted.

Theorem dipole_on_upper_boundary_repaired :
  stat_of (dipole_vector Qle_bool true wit_grid (wit_p0 :: wit_p1 :: nil)) = ((0, 0, 0)%Z :: nil) /\
  sums_of (dipole_vector Qle_bool true wit_grid (wit_p0 :: wit_p1 :: nil)) = (1%Q :: 0%Q :: 0%Q :: nil).
Proof. exact upper_boundary_repaired. Qed.
Print Assumptions dipole_on_upper_boundary_repaired.

(* ---- point_source_sum: the 8 (or fewer) weights of each component sum to the
        direction cosine; any grid with >= 1 cell per direction ---- *)
Theorem point_source_sum cosd sind G p az el fx fy fz :
  (1 <= an (gx G))%Z -> (1 <= an (gy G))%Z -> (1 <= an (gz G))%Z ->
  point_vector Rleb cosd sind G p az el = Some (fx, fy, fz) ->
  sum3 fx (an (gx G)) (an (gy G) + 1) (an (gz G) + 1) = cosd az * cosd el /\
  sum3 fy (an (gx G) + 1) (an (gy G)) (an (gz G) + 1) = sind az * cosd el /\
  sum3 fz (an (gx G) + 1) (an (gy G) + 1) (an (gz G)) = sind el.
Proof. exact (point_vector_sum cosd sind G p az el fx fy fz). Qed.
Print Assumptions point_source_sum.

Theorem point_source_rejects_outside cosd sind G p az el :
  point_vector Rleb cosd sind G p az el = None <-> ~ inside G p.
Proof. exact (point_vector_outside cosd sind G p az el). Qed.
Print Assumptions point_source_rejects_outside.

Theorem point_source_unit {F} {FO : FOps F}
  (Fth : field_theory F0 F1 Fadd Fmul Fsub Fopp Fdiv Finv (@eq F)) (cosd sind : F -> F) az el :
  (cosd az * cosd az + sind az * sind az = 1)%F -> (cosd el * cosd el + sind el * sind el = 1)%F ->
  let r := rotation cosd sind az el in (px r * px r + py r * py r + pz r * pz r = 1)%F.
Proof. exact (rotation_unit Fth cosd sind az el). Qed.
Print Assumptions point_source_unit.

(* ---- source_field_scaling (numbers are pairs (re, im)) ---- *)
Section Scaling.
  Context {F : Type} {FO : FOps F}.
  Hypothesis Fth : field_theory F0 F1 Fadd Fmul Fsub Fopp Fdiv Finv (@eq F).
  Variable leb : F -> F -> bool.
  Variables pi mu0 : F.
  Local Open Scope F_scope.

  Theorem source_field_scaling_none sr si v :
    source_scale leb pi mu0 None (sr, si) false v = Some (v * sr, v * si).
  Proof. exact (scale_none Fth leb pi mu0 sr si v). Qed.

  (* frequency f < 0: s = -f, real; factor -s mu0 *)
  Theorem source_field_scaling_laplace f sr v : feqb leb f 0 = false -> fltb leb f 0 = true ->
    source_scale leb pi mu0 (Some f) (sr, 0) false v = Some (v * sr * (- (- f * mu0)), 0).
  Proof. exact (scale_laplace Fth leb pi mu0 f sr v). Qed.

  (* frequency f > 0: s = 2 pi i f; factor -s mu0 = (0, -2 pi f mu0) *)
  Theorem source_field_scaling_frequency f sr si stc v :
    feqb leb f 0 = false -> fltb leb f 0 = false ->
    source_scale leb pi mu0 (Some f) (sr, si) stc v
    = Some (cmul (v * sr, v * si) (0, - ((1 + 1) * pi * f * mu0))).
  Proof. exact (scale_freq Fth leb pi mu0 f sr si stc v). Qed.

  (* observed quirk: complex strength on a real-dtype field raises *)
  Theorem complex_strength_on_real_field_raises f sr si v :
    feqb leb f 0 = false -> fltb leb f 0 = true ->
    source_scale leb pi mu0 (Some f) (sr, si) true v = None /\
    source_scale leb pi mu0 None (sr, si) true v = None.
  Proof. exact (scale_complex_on_real leb pi mu0 f sr si v). Qed.
End Scaling.
Print Assumptions source_field_scaling_none.
Print Assumptions source_field_scaling_laplace.
Print Assumptions source_field_scaling_frequency.
Print Assumptions complex_strength_on_real_field_raises.

(* ---- dipole_roundtrip: electrodes -> (centre, az, el, length) -> electrodes,
        under the angle contract r cos(angle x y) = x, r sin(angle x y) = y,
        r = sqrt(x^2+y^2), and sqrt(x)^2 = x on sums of two squares ---- *)
Theorem dipole_roundtrip {F} {FO : FOps F}
  (Fth : field_theory F0 F1 Fadd Fmul Fsub Fopp Fdiv Finv (@eq F)) (two_nz : (1 + 1)%F <> 0%F)
  (cosd sind sqrt : F -> F) (angle : F -> F -> F) :
  (forall x y, sqrt (x * x + y * y) * cosd (angle x y) = x)%F ->
  (forall x y, sqrt (x * x + y * y) * sind (angle x y) = y)%F ->
  (forall x y, sqrt (x * x + y * y) * sqrt (x * x + y * y) = x * x + y * y)%F ->
  forall p0 p1,
  let apl := dipole_to_point sqrt angle p0 p1 in
  point_to_dipole cosd sind (half_sum p0 p1) (fst (fst apl)) (snd (fst apl)) (snd apl) = (p0, p1).
Proof. exact (roundtrip Fth two_nz cosd sind sqrt angle). Qed.
Print Assumptions dipole_roundtrip.

Theorem flat_pairs_reshape {F} (p : P3 F * P3 F) :
  match points_to_flat p with
  | (x1 :: x2 :: y1 :: y2 :: z1 :: z2 :: nil)%list => flat_to_points x1 x2 y1 y2 z1 z2 = p
  | _ => False end.
Proof. exact (flat_pairs p). Qed.
Print Assumptions flat_pairs_reshape.

(* ---- loop_closed_planar_area_normal ---- *)
Theorem loop_closed_planar_area_normal (cosd sind sqrt : R -> R) (az el area : R) (c : P3 R) :
  cosd az * cosd az + sind az * sind az = 1 -> cosd el * cosd el + sind el * sind el = 1 ->
  cosd (az + 90) = - sind az -> sind (az + 90) = cosd az ->
  cosd (el + 90) = - sind el -> sind (el + 90) = cosd el ->
  cosd 0 = 1 -> sind 0 = 0 -> sqrt (area / 2) * sqrt (area / 2) = area / 2 ->
  exists q0 q1 q2 q3 q4,
    point_to_square_loop cosd sind sqrt c az el area = (q0 :: q1 :: q2 :: q3 :: q4 :: nil)%list /\
    q4 = q0 /\
    (let n := rotation cosd sind az el in
     pdot (pminus q0 c) n = 0 /\ pdot (pminus q1 c) n = 0 /\
     pdot (pminus q2 c) n = 0 /\ pdot (pminus q3 c) n = 0 /\
     pdot (pminus q1 q0) (pminus q1 q0) = area /\ pdot (pminus q2 q1) (pminus q2 q1) = area /\
     pdot (pminus q3 q2) (pminus q3 q2) = area /\ pdot (pminus q4 q3) (pminus q4 q3) = area /\
     pdot (pminus q1 q0) (pminus q2 q1) = 0 /\
     pcross (pminus q1 q0) (pminus q2 q1) = mkP3 (area * px n) (area * py n) (area * pz n)).
Proof. intros. apply loop_geometry; assumption. Qed.
Print Assumptions loop_closed_planar_area_normal.

(* the trigonometric contract holds for the real cosine and sine of degrees *)
Theorem trig_contract_degrees a :
  cosdR a * cosdR a + sindR a * sindR a = 1 /\ cosdR (a + 90) = - sindR a /\ sindR (a + 90) = cosdR a.
Proof. exact (trig_contract a). Qed.
Print Assumptions trig_contract_degrees.

(* ---- non-vacuity of the hypotheses ---- *)
Example dipole_hypotheses_satisfiable :
  grid_ok ex_grid /\ inside ex_grid ex_p0 /\ inside ex_grid ex_p1 /\ seg_upper_ok false ex_grid ex_p0 ex_p1.
Proof. exact ex_hyps. Qed.
Print Assumptions dipole_hypotheses_satisfiable.

Example point_source_hypothesis_satisfiable cosd sind az el :
  exists t, point_vector Rleb cosd sind ex_grid (mkP3 (1 / 2) 1 (3 / 2)) az el = Some t.
Proof. exact (ex_point_some cosd sind az el). Qed.
Print Assumptions point_source_hypothesis_satisfiable.

Example loop_contract_satisfiable az el area : 0 <= area ->
  cosdR az * cosdR az + sindR az * sindR az = 1 /\ cosdR el * cosdR el + sindR el * sindR el = 1 /\
  cosdR (az + 90) = - sindR az /\ sindR (az + 90) = cosdR az /\
  cosdR (el + 90) = - sindR el /\ sindR (el + 90) = cosdR el /\
  cosdR 0 = 1 /\ sindR 0 = 0 /\ sqrt (area / 2) * sqrt (area / 2) = area / 2.
Proof. exact (ex_loop_contract az el area). Qed.
Print Assumptions loop_contract_satisfiable.

Example laplace_hypotheses_satisfiable : feqb Rleb (-1) 0 = false /\ fltb Rleb (-1) 0 = true.
Proof. exact ex_laplace. Qed.
Print Assumptions laplace_hypotheses_satisfiable.

(* ---- input forms of get_source_field: coordinates + keywords (strength,
        length, electric) are turned into the electrodes of the Tx* instance;
        `length` is forwarded for the 5-element point format ---- *)
Section Forms.
  Context {F : Type} {FO : FOps F}.
  Hypothesis Fth : field_theory F0 F1 Fadd Fmul Fsub Fopp Fdiv Finv (@eq F).
  Variable leb : F -> F -> bool.
  Variables cosd sind sqrt : F -> F.
  Variable angle : F -> F -> F.

  Theorem input_form_point electric c az el len :
    plain_points leb cosd sind sqrt angle electric (PI_dip (DPoint c az el)) len
    = dipole_points leb cosd sind sqrt angle (negb electric) (DPoint c az el) len.
  Proof. exact (plain_point_form leb cosd sind sqrt angle electric c az el len). Qed.

  Theorem input_form_electrodes electric x1 x2 y1 y2 z1 z2 len len' :
    plain_points leb cosd sind sqrt angle electric (PI_dip (DFlat x1 x2 y1 y2 z1 z2)) len
    = dipole_points leb cosd sind sqrt angle (negb electric) (DPair (mkP3 x1 y1 z1) (mkP3 x2 y2 z2)) len' /\
    plain_points leb cosd sind sqrt angle electric (PI_dip (DPair (mkP3 x1 y1 z1) (mkP3 x2 y2 z2))) len
    = dipole_points leb cosd sind sqrt angle (negb electric) (DPair (mkP3 x1 y1 z1) (mkP3 x2 y2 z2)) len'.
  Proof. exact (plain_electrode_forms leb cosd sind sqrt angle electric x1 x2 y1 y2 z1 z2 len len'). Qed.

  (* magnetic dipole as (x, y, z, az, el) + length: the loop of AREA = length *)
  Theorem input_form_magnetic_point_area c az el len :
    plain_points leb cosd sind sqrt angle false (PI_dip (DPoint c az el)) len
    = Some (point_to_square_loop cosd sind sqrt c az el len).
  Proof. exact (plain_magnetic_point_loop leb cosd sind sqrt angle c az el len). Qed.

  Theorem input_form_electric_point_length c az el len :
    plain_points leb cosd sind sqrt angle true (PI_dip (DPoint c az el)) len
    = Some (fst (point_to_dipole cosd sind c az el len) :: snd (point_to_dipole cosd sind c az el len) :: nil)%list.
  Proof. exact (plain_electric_point_dipole leb cosd sind sqrt angle c az el len). Qed.

  (* the trilinear spread keeps the first moment across the cell (hence the
     discrete magnetic moment 1/2 sum r x j of a wire equals 1/2 oint r x dl) *)
  Theorem spread_keeps_first_moment (xc n h : F) : h <> 0%F ->
    ((1 - (xc - n) / h) * n + (xc - n) / h * (n + h) = xc)%F.
  Proof. exact (spread_first_moment Fth xc n h). Qed.
End Forms.
Print Assumptions input_form_point.
Print Assumptions input_form_electrodes.
Print Assumptions input_form_magnetic_point_area.
Print Assumptions input_form_electric_point_length.
Print Assumptions spread_keeps_first_moment.

(* ---- magnetic moment of the loop: 1/2 sum_i (q_i - c) x (q_{i+1} - c) = area * rotation ---- *)
Theorem loop_magnetic_moment (cosd sind sqrt : R -> R) (az el area : R) (c : P3 R) :
  cosd az * cosd az + sind az * sind az = 1 -> cosd el * cosd el + sind el * sind el = 1 ->
  cosd (az + 90) = - sind az -> sind (az + 90) = cosd az ->
  cosd (el + 90) = - sind el -> sind (el + 90) = cosd el ->
  cosd 0 = 1 -> sind 0 = 0 -> sqrt (area / 2) * sqrt (area / 2) = area / 2 ->
  exists q0 q1 q2 q3 q4,
    point_to_square_loop cosd sind sqrt c az el area = (q0 :: q1 :: q2 :: q3 :: q4 :: nil)%list /\
    (let n := rotation cosd sind az el in
     let m := padd3 (padd3 (pcross (pminus q0 c) (pminus q1 c)) (pcross (pminus q1 c) (pminus q2 c)))
                    (padd3 (pcross (pminus q2 c) (pminus q3 c)) (pcross (pminus q3 c) (pminus q4 c))) in
     m = mkP3 (2 * (area * px n)) (2 * (area * py n)) (2 * (area * pz n))).
Proof. intros. apply loop_moment; assumption. Qed.
Print Assumptions loop_magnetic_moment.

(* ---- keyword arguments of get_source_field (kwargs.get(key, default)):
        an explicit value is used as given, ALSO when it is falsy (strength 0,
        0.0, 0j, False); a missing keyword means the default; an explicit None
        strength raises; the field is linear in the strength, so strength zero
        gives the zero field ---- *)
Section Keywords.
  Context {F : Type} {FO : FOps F}.
  Hypothesis Fth : field_theory F0 F1 Fadd Fmul Fsub Fopp Fdiv Finv (@eq F).
  Variable leb : F -> F -> bool.
  Variables cosd sind sqrt : F -> F.
  Variable angle : F -> F -> F.
  Variables pi mu0 : F.
  Local Open Scope F_scope.

  Theorem keyword_strength_used_as_given st klen kel inp pts st' :
    gsf_plain leb cosd sind sqrt angle (KwVal st) klen kel inp = Some (pts, st') -> st' = st.
  Proof. exact (gsf_plain_strength leb cosd sind sqrt angle st klen kel inp pts st'). Qed.

  Theorem keyword_strength_missing_is_one klen kel inp pts st' :
    gsf_plain leb cosd sind sqrt angle KwMissing klen kel inp = Some (pts, st') -> st' = (1, 0).
  Proof. exact (gsf_plain_missing_strength leb cosd sind sqrt angle klen kel inp pts st'). Qed.

  Theorem keyword_strength_none_raises klen kel inp :
    gsf_plain leb cosd sind sqrt angle KwNone klen kel inp = None.
  Proof. exact (gsf_plain_none_strength leb cosd sind sqrt angle klen kel inp). Qed.

  Theorem keyword_length_used_for_point_format kst len kel c az el : kst <> KwNone ->
    gsf_plain leb cosd sind sqrt angle kst (KwVal len) kel (PI_dip (DPoint c az el))
    = option_map (fun p => (p, match kst with KwVal v => v | _ => (1, 0) end))
        (dipole_points leb cosd sind sqrt angle (negb (kw_electric kel)) (DPoint c az el) len).
  Proof. exact (gsf_plain_length_point leb cosd sind sqrt angle kst len kel c az el). Qed.

  Theorem source_field_linear_in_strength freq k sr si stc v :
    source_scale leb pi mu0 freq (k * sr, k * si) stc v
    = option_map (fun z => (k * fst z, k * snd z)) (source_scale leb pi mu0 freq (sr, si) stc v).
  Proof. exact (scale_linear Fth leb pi mu0 freq k sr si stc v). Qed.

  Theorem zero_strength_zero_field freq stc v z :
    source_scale leb pi mu0 freq (0, 0) stc v = Some z -> z = (0, 0).
  Proof. exact (scale_zero_strength Fth leb pi mu0 freq stc v z). Qed.
End Keywords.
Print Assumptions keyword_strength_used_as_given.
Print Assumptions keyword_strength_missing_is_one.
Print Assumptions keyword_strength_none_raises.
Print Assumptions keyword_length_used_for_point_format.
Print Assumptions source_field_linear_in_strength.
Print Assumptions zero_strength_zero_field.

Example zero_strength_hypothesis_satisfiable :
  source_scale Rleb PI 1 (Some 2) (0, 0) false 3 = Some (0, 0) /\
  source_scale Rleb PI 1 None (0, 0) false 3 = Some (0, 0).
Proof. exact ex_zero_strength. Qed.
Print Assumptions zero_strength_hypothesis_satisfiable.

(* ---- get_source_field on ONE source instance, ALL request histories
        (Model/SourceHist.v: explicit heap, so aliasing is inside the model).
        Requests on any grids / frequencies (real-valued ones scale the array
        they return IN PLACE), interleaved with in-place edits of previously
        RETURNED arrays by the caller.  [memo = false] is the code as pinned
        (nothing is kept with the instance; read off on every run by the ast
        anchor of py/props/c10.py).  Every request returns scale f (vecof g):
        a function of (grid, source, frequency) only; returned arrays are
        pairwise distinct cells, none is the array kept with the instance, and
        each holds what was returned changed only by the caller's own edits. ---- *)
Section History.
  Variables (Grid Freq Ed Vec : Type) (vdef : Vec).
  Variable geqb : Grid -> Grid -> bool.
  Variable is_real : Freq -> bool.
  Variable vecof : Grid -> Vec.
  Variable scale : Freq -> Vec -> Vec.
  Variable edit : Ed -> Vec -> Vec.
  Hypothesis geqb_true : forall a b, geqb a b = true -> a = b.

  Theorem source_field_history_independent copy_out (ops : list (Op Grid Freq Ed)) :
    let r := run Grid Freq Ed Vec geqb is_real vecof scale edit false copy_out (st0 Grid Vec vdef) ops in
    snd r = List.map (spec_obs Grid Freq Ed Vec vecof scale) ops /\
    List.map (heap _ _ (fst r)) (outs _ _ (fst r)) = spec_outs Grid Freq Ed Vec vecof scale edit nil ops /\
    List.NoDup (outs _ _ (fst r)) /\
    kept _ _ (fst r) = None.
  Proof.
    intro r.
    destruct (history_independent_gen Grid Freq Ed Vec vdef geqb is_real vecof scale edit geqb_true
                false copy_out ops (or_introl eq_refl)) as (H1 & H2 & H3 & _).
    exact (conj H1 (conj H2 (conj H3
      (run_keeps_nothing Grid Freq Ed Vec geqb is_real vecof scale edit copy_out ops (st0 Grid Vec vdef) eq_refl)))).
  Qed.

  (* a vector kept with the instance is fine as long as it is handed out as a copy *)
  Theorem kept_vector_with_copy_history_independent (ops : list (Op Grid Freq Ed)) :
    let r := run Grid Freq Ed Vec geqb is_real vecof scale edit true true (st0 Grid Vec vdef) ops in
    snd r = List.map (spec_obs Grid Freq Ed Vec vecof scale) ops /\
    List.map (heap _ _ (fst r)) (outs _ _ (fst r)) = spec_outs Grid Freq Ed Vec vecof scale edit nil ops /\
    List.NoDup (outs _ _ (fst r)) /\
    (forall g id, kept _ _ (fst r) = Some (g, id) ->
       ~ List.In id (outs _ _ (fst r)) /\ heap _ _ (fst r) id = vecof g).
  Proof.
    exact (history_independent_gen Grid Freq Ed Vec vdef geqb is_real vecof scale edit geqb_true
             true true ops (or_intror eq_refl)).
  Qed.
End History.
Print Assumptions source_field_history_independent.
Print Assumptions kept_vector_with_copy_history_independent.

(* non-vacuity / the excluded class: vector kept with the instance and the STORED
   array handed out; one grid, scaling = times 3, requests real, real, complex:
   3, 9, 27 instead of 3, 3, 3 (the pinned machine and the copying one give 3, 3, 3) *)
Example kept_vector_without_copy_refuted :
  ex_run true false (Request _ _ _ tt true :: Request _ _ _ tt true :: Request _ _ _ tt false :: nil)%list
  = (Some 3%Z :: Some 9%Z :: Some 27%Z :: nil)%list /\
  ex_run false false (Request _ _ _ tt true :: Request _ _ _ tt true :: Request _ _ _ tt false :: nil)%list
  = (Some 3%Z :: Some 3%Z :: Some 3%Z :: nil)%list /\
  ex_run true true (Request _ _ _ tt true :: Request _ _ _ tt true :: Request _ _ _ tt false :: nil)%list
  = (Some 3%Z :: Some 3%Z :: Some 3%Z :: nil)%list.
Proof. exact memo_alias_refuted_lemma. Qed.
Print Assumptions kept_vector_without_copy_refuted.
