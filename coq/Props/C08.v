(* Props/C08.v -- property C08: J v is the derivative of the synthetic data,
   J^T its exact adjoint.  ONLY statements, each closed by [exact] of a lemma
   from Proofs/Adjoint.v, with Print Assumptions beneath.  Same abstract
   section as C07 (Model/Adjoint.v): K any field of characteristic <> 2 with an
   involutive automorphism conj; finite index lists; no limits. *)
From Coq Require Import ZArith List Bool Field.
From V Require Import Base.FieldSig Base.Sums Base.Arr Model.FIT Gen.MapsVol.
From V Require Import Model.Adjoint Proofs.Adjoint Proofs.AdjointConcrete.
Import ListNotations.

Section C08.
  Context {K : Type} {O : FOps K}.
  Hypothesis Fth : field_theory F0 F1 Fadd Fmul Fsub Fopp Fdiv Finv (@eq K).
  Hypothesis two_nz : (1 + 1)%F <> 0%F.
  Variable conj : K -> K.
  Hypothesis conj_add : forall x y, conj (x + y)%F = (conj x + conj y)%F.
  Hypothesis conj_mul : forall x y, conj (x * y)%F = (conj x * conj y)%F.
  Hypothesis conj_invol : forall x, conj (conj x) = x.

  Context {IE IC ID IM : Type}.
  Variables (E : list IE) (C : list IC) (Dt : list ID) (M : list IM).
  Variable K0 : (IE -> K) -> IE -> K.
  Variable Av : (IC -> K) -> IE -> K.
  Variable AvT : (IE -> K) -> IC -> K.
  Variable s : K.
  Variable p : ID -> IE -> K.
  Variable fin : ID -> bool.
  Variable w : ID -> K.
  Hypothesis K0_sym : forall u v, dotE E (K0 u) v = dotE E u (K0 v).
  Hypothesis Av_add : forall a b i, Av (fun k => a k + b k)%F i = (Av a i + Av b i)%F.
  Hypothesis Av_T : forall a x, dotE E (Av a) x = dotC C a (AvT x).
  Hypothesis Av_real : forall a, (forall k, conj (a k) = a k) -> forall i, conj (Av a i) = Av a i.
  Hypothesis w_real : forall j, conj (w j) = w j.
  Hypothesis s_imag : conj s = (- s)%F.
  Hypothesis s_nz : s <> 0%F.

  (* 1. J delta is the derivative of the data, exactly: the data of sigma+delta
     minus the data of sigma is J delta = P u  (u: the jvec solve with source
     -smu0 e Av(delta)) plus P rho, where rho solves the same system with the
     source -smu0 (e'-e) Av(delta): the remainder carries (e'-e) AND delta. *)
  Theorem jvec_is_derivative_exact (sig delta : IC -> K) (f e e' u rho : IE -> K) j :
    (forall a b i, K0 (fun k => a k - b k)%F i = (K0 a i - K0 b i)%F) ->
    (forall z, (forall i, In i E -> Aop K0 Av s sig z i = 0%F) -> forall i, In i E -> z i = 0%F) ->
    (forall i, In i E -> Aop K0 Av s sig e i = f i) ->
    (forall i, In i E -> Aop K0 Av s (fun k => sig k + delta k)%F e' i = f i) ->
    (forall i, In i E -> Aop K0 Av s sig u i = jsource Av s e delta i) ->
    (forall i, In i E ->
        Aop K0 Av s sig rho i = jsource Av s (fun k => e' k - e k)%F delta i) ->
    (P E p e' j - P E p e j = P E p u j + P E p rho j)%F.
  Proof.
    intros K0_sub A_inj He He' Hu Hrho.
    exact (jvec_derivative Fth E K0 Av s p Av_add sig delta f e e' u rho K0_sub A_inj
             He He' Hu Hrho j).
  Qed.

  (* 2. J^T is the exact adjoint of J for EVERY linear map V from model space to
     the cells of the computational grid that has a transpose VT and maps real
     to real (identity, anisotropy aliasing, volume averaging to any grid:
     every gridding mode), every real chain factor c, every real v, every
     data-shaped y:   Re sum_j conj(y_j) (J v)_j  =  <J^T y, v>_model . *)
  Theorem jt_adjoint (V : (IM -> K) -> IC -> K) (VT : (IC -> K) -> IM -> K) (c : IM -> K)
          (sig : IC -> K) (e u b : IE -> K) (v : IM -> K) (y : ID -> K) :
    (forall a x, dotC C (V a) x = dotM M a (VT x)) ->
    (forall a, (forall m, conj (a m) = a m) -> forall k, conj (V a k) = V a k) ->
    (forall m, conj (c m) = c m) ->
    (forall m, conj (v m) = v m) ->
    (forall j, fin j = true -> w j <> 0%F) ->
    (forall i, In i E -> Aop K0 Av s sig u i = jsource Av s e (jvec_dsig V c v) i) ->
    (forall i, In i E ->
        Aop K0 Av s sig b i = rsource conj Dt s p fin w (jt_residual w y) i) ->
    re conj (sum (filter fin Dt) (fun j => conj (y j) * P E p u j)%F)
    = dotM M (jtvec_of conj AvT s VT c e b) v.
  Proof.
    intros V_T V_real c_real v_real w_nz Hu Hb.
    exact (jt_adjoint_eq Fth two_nz conj conj_add conj_mul conj_invol E C Dt M K0 Av AvT s p
             fin w K0_sym Av_T Av_real w_real s_imag s_nz V VT c sig e u b v y
             V_T V_real c_real v_real w_nz Hu Hb).
  Qed.

  (* 3. jtvec applied to the weighted residual poses exactly the adjoint
     problem of the gradient (same residual source => same back-propagated
     field => same result through the same pipeline) *)
  Theorem jtvec_of_weighted_residual_is_gradient r i :
    (forall j, fin j = true -> w j <> 0%F) ->
    rsource conj Dt s p fin w (jt_residual w (fun j => r j * w j)%F) i
    = rsource conj Dt s p fin w r i.
  Proof.
    exact (jtvec_weighted_residual_source Fth conj Dt s p fin w r i).
  Qed.

  (* 2b. several source-frequency pairs, each with ITS OWN computational grid
     and transpose: if the adjoint identity holds per pair (theorem 2, with
     g x = VT_x (grad e_x b_x)), it holds for the survey with the per-pair
     contributions ACCUMULATED on the model grid and the chain factor applied
     once afterwards -- the order of Simulation.gradient. *)
  Theorem jt_adjoint_sum {X} (Xs : list X) (S : X -> K) (g : X -> IM -> K) (c v : IM -> K) :
    (forall x, In x Xs -> re conj (S x) = dotM M (fun m => c m * g x m)%F v) ->
    re conj (sum Xs S) = dotM M (fun m => c m * sum Xs (fun x => g x m))%F v.
  Proof.
    exact (adjoint_sum Fth two_nz conj conj_add M Xs S g c v).
  Qed.

  (* the system matrix is symmetric (used by both directions) *)
  Theorem system_matrix_symmetric sig u v :
    dotE E (Aop K0 Av s sig u) v = dotE E u (Aop K0 Av s sig v).
  Proof. exact (Aop_sym Fth E K0 Av s K0_sym sig u v). Qed.
End C08.

Print Assumptions jvec_is_derivative_exact.
Print Assumptions jt_adjoint.
Print Assumptions jt_adjoint_sum.
Print Assumptions jtvec_of_weighted_residual_is_gradient.
Print Assumptions system_matrix_symmetric.

(* 5. maps._interp_volume_average_adj ACCUMULATES: with P given by its non-zero
   entries (third party), entry (i,j,k) of the result is the old entry plus the
   sum over the entries that target (i,j,k) of weight * nval(source cell); two
   successive calls add both contributions to the running total. *)
Section C08volavg.
  Context {K : Type} {O : FOps K}.
  Hypothesis Fth : field_theory F0 F1 Fadd Fmul Fsub Fopp Fdiv Finv (@eq K).
  Hypothesis two_nz : (1 + 1)%F <> 0%F.
  Notation A3 := (Z -> Z -> Z -> K).
  Local Open Scope Z_scope.

  Theorem vol_avg_adjoint_accumulates (T : list (cell3 * cell3 * K)) (nval oval : A3) i j k :
    vt_add T nval oval i j k
    = (oval i j k
       + sum T (fun t => if ((i =? fst (fst (fst (fst t)))) && (j =? snd (fst (fst (fst t))))
                             && (k =? snd (fst (fst t))))%bool
                         then snd t * nval (fst (fst (snd (fst t)))) (snd (fst (snd (fst t))))
                                         (snd (snd (fst t)))
                         else 0))%F.
  Proof. exact (vt_add_spec Fth T nval oval i j k). Qed.

  Theorem vol_avg_adjoint_twice (T1 T2 : list (cell3 * cell3 * K)) (n1 n2 oval : A3) i j k :
    vt_add T2 n2 (vt_add T1 n1 oval) i j k
    = (oval i j k + (vt_add T1 n1 zero3 i j k + vt_add T2 n2 zero3 i j k))%F.
  Proof. exact (vt_add_twice Fth T1 T2 n1 n2 oval i j k). Qed.
  (* 6. Hypothesis V_T of jt_adjoint holds for the model's own pair: the forward
     volume averaging [v_apply T] (what jvec applies AFTER the chain factor on
     the model grid, Model/Adjoint.v jvec_source_T) and the accumulating adjoint
     [vt_add T] (what gradient/jtvec apply BEFORE the chain factor on the model
     grid) built from the same entry list are transposes, for every entry list
     whose cells lie in the duplicate-free cell lists summed over. *)
  Theorem volume_average_pair_is_transpose (T : list (cell3 * cell3 * K)) (a x : A3)
          (Cm Cc : list cell3) :
    NoDup Cm -> NoDup Cc ->
    (forall t, In t T -> In (fst (fst t)) Cm /\ In (snd (fst t)) Cc) ->
    sum Cc (fun c => (at3 (v_apply T a) c * at3 x c)%F)
    = sum Cm (fun m => (at3 a m * at3 (vt_add T x zero3) m)%F).
  Proof. exact (v_apply_vt_add_transpose Fth T a x Cm Cc). Qed.
End C08volavg.

Print Assumptions vol_avg_adjoint_accumulates.
Print Assumptions vol_avg_adjoint_twice.
Print Assumptions volume_average_pair_is_transpose.

(* 7. (round 6) HISTORIES on one Simulation.  Model/JtWeights.v: the survey's
   current standard deviation, the weights cached by the first misfit
   evaluation, the misfit cache; operations misfit / gradient / jvec / any
   change of the noise model / clean('computed') / jtvec.  jtvec divides the
   vector by the CACHED weights and _get_rfield multiplies by the same cached
   weights.  [good_*]: standard deviations and weights real and non-zero on the
   data that count (fin). *)
From V Require Import Model.JtWeights Proofs.JtWeights Proofs.AdjointC Proofs.JtWeightsC.
Section C08history.
  Context {K : Type} {O : FOps K}.
  Hypothesis Fth : field_theory F0 F1 Fadd Fmul Fsub Fopp Fdiv Finv (@eq K).
  Hypothesis two_nz : (1 + 1)%F <> 0%F.
  Variable conj : K -> K.
  Hypothesis conj_add : forall x y, conj (x + y)%F = (conj x + conj y)%F.
  Hypothesis conj_mul : forall x y, conj (x * y)%F = (conj x * conj y)%F.
  Hypothesis conj_invol : forall x, conj (conj x) = x.
  Context {IE IC ID IM : Type}.
  Variables (E : list IE) (C : list IC) (Dt : list ID) (M : list IM).
  Variable K0 : (IE -> K) -> IE -> K.
  Variable Av : (IC -> K) -> IE -> K.
  Variable AvT : (IE -> K) -> IC -> K.
  Variable s : K.
  Variable p : ID -> IE -> K.
  Variable fin : ID -> bool.
  Hypothesis K0_sym : forall u v, dotE E (K0 u) v = dotE E u (K0 v).
  Hypothesis Av_T : forall a x, dotE E (Av a) x = dotC C a (AvT x).
  Hypothesis Av_real : forall a, (forall k, conj (a k) = a k) -> forall i, conj (Av a i) = Av a i.
  Hypothesis s_imag : conj s = (- s)%F.
  Hypothesis s_nz : s <> 0%F.

  (* 7a. after EVERY history of good operations from EVERY good state, jtvec(y)
     does not fail and hands the solver the source  - P^T conj(y)  (on the data
     with finite weights): no trace of the noise model, of the cached weights or
     of the history. *)
  Theorem jtvec_after_any_history_is_weight_free (ops : list (@wop K ID)) (st : @wstate K ID) y :
    good_state conj fin st -> Forall (good_op conj fin) ops ->
    exists f, snd (step conj Dt s p fin (final conj Dt s p fin ops st) (OpJtvec y)) = Rsource f
              /\ forall i : IE, f i = jt_source_ideal conj Dt p fin y i.
  Proof.
    exact (jtvec_after_history Fth conj conj_add conj_mul conj_invol Dt s p fin s_imag s_nz ops st y).
  Qed.

  (* 7b. two arbitrary histories on two arbitrary simulations (e.g. re-used with a
     changed noise model vs fresh) pose the same adjoint problem for the same y *)
  Theorem jtvec_independent_of_history (ops1 ops2 : list (@wop K ID)) (st1 st2 : @wstate K ID) y
          (f1 f2 : IE -> K) :
    good_state conj fin st1 -> good_state conj fin st2 ->
    Forall (good_op conj fin) ops1 -> Forall (good_op conj fin) ops2 ->
    snd (step conj Dt s p fin (final conj Dt s p fin ops1 st1) (OpJtvec y)) = Rsource f1 ->
    snd (step conj Dt s p fin (final conj Dt s p fin ops2 st2) (OpJtvec y)) = Rsource f2 ->
    forall i, f1 i = f2 i.
  Proof.
    exact (jtvec_history_independent Fth conj conj_add conj_mul conj_invol Dt s p fin s_imag s_nz
             ops1 ops2 st1 st2 y f1 f2).
  Qed.

  (* 7c. the adjoint identity (theorem 2) on every reachable state: b is the
     back-propagation of whatever jtvec hands to the solver after the history *)
  Theorem jt_adjoint_on_every_reachable_state
          (V : (IM -> K) -> IC -> K) (VT : (IC -> K) -> IM -> K) (c : IM -> K)
          (sig : IC -> K) (e u b : IE -> K) (v : IM -> K)
          (ops : list (@wop K ID)) (st : @wstate K ID) (y : ID -> K) (f : IE -> K) :
    (forall a x, dotC C (V a) x = dotM M a (VT x)) ->
    (forall a, (forall m, conj (a m) = a m) -> forall k, conj (V a k) = V a k) ->
    (forall m, conj (c m) = c m) ->
    (forall m, conj (v m) = v m) ->
    (forall i, In i E -> Aop K0 Av s sig u i = jsource Av s e (jvec_dsig V c v) i) ->
    good_state conj fin st -> Forall (good_op conj fin) ops ->
    snd (step conj Dt s p fin (final conj Dt s p fin ops st) (OpJtvec y)) = Rsource f ->
    (forall i, In i E -> Aop K0 Av s sig b i = f i) ->
    re conj (sum (filter fin Dt) (fun j => conj (y j) * P E p u j)%F)
    = dotM M (jtvec_of conj AvT s VT c e b) v.
  Proof.
    intros V_T V_real c_real v_real Hu.
    exact (jt_adjoint_reachable Fth two_nz conj conj_add conj_mul conj_invol E C Dt M K0 Av AvT s p
             fin K0_sym Av_T Av_real s_imag s_nz V VT c sig e u b v V_T V_real c_real v_real Hu
             ops st y f).
  Qed.

  (* 7d. on every reachable state jtvec of the residual weighted with the weights
     the state holds poses the adjoint problem of the gradient *)
  Theorem jtvec_of_weighted_residual_is_gradient_on_every_reachable_state
          (ops : list (@wop K ID)) (st : @wstate K ID) (r w : ID -> K) :
    good_state conj fin st -> Forall (good_op conj fin) ops ->
    st_w (do_misfit (final conj Dt s p fin ops st)) = Some w ->
    snd (step conj Dt s p fin (final conj Dt s p fin ops st) (OpJtvec (fun j => r j * w j)%F))
    = Rsource (jt_source conj Dt s p fin w (fun j => r j * w j)%F)
    /\ forall i : IE, jt_source conj Dt s p fin w (fun j => r j * w j)%F i
                      = rsource conj Dt s p fin w r i.
  Proof.
    exact (jtvec_weighted_residual_reachable Fth conj conj_add conj_mul conj_invol Dt s p fin
             ops st r w).
  Qed.

  (* 7e. jtvec leaves the weight book-keeping as a misfit evaluation leaves it *)
  Theorem jtvec_leaves_the_state_of_a_misfit_evaluation (st : @wstate K ID) y :
    fst (step conj Dt s p fin st (OpJtvec y)) = fst (step conj Dt s p fin st (@OpMisfit K ID)).
  Proof. exact (jtvec_state_is_misfit_state conj Dt s p fin st y). Qed.
End C08history.

Print Assumptions jtvec_after_any_history_is_weight_free.
Print Assumptions jtvec_independent_of_history.
Print Assumptions jt_adjoint_on_every_reachable_state.
Print Assumptions jtvec_of_weighted_residual_is_gradient_on_every_reachable_state.
Print Assumptions jtvec_leaves_the_state_of_a_misfit_evaluation.

(* Non-vacuity and sensitivity over the complex numbers: the history
   [misfit; noise model std 1 -> 2] from a fresh simulation satisfies the
   hypotheses, reaches a state whose cached weights (1) differ from the weights
   of the current noise model (1/4), and on that state the variant that scales
   with weights taken afresh from the survey (class of seed C08-6) does NOT give
   the history-independent source (-4 instead of -1). *)
From Coquelicot Require Complex.
Example history_hypotheses_nonvacuous_and_sensitive :
  good_state Complex.Cconj jw_fin (fresh jw_sd1)
  /\ List.Forall (good_op Complex.Cconj jw_fin) jw_hist
  /\ st_w (do_misfit jw_end) = Some (weights_of jw_sd1)
  /\ weights_of jw_sd1 tt <> weights_of (st_sd jw_end) tt
  /\ jt_source_afresh Complex.Cconj [tt] Complex.Ci jw_p jw_fin jw_end jw_y tt
     <> jt_source_ideal Complex.Cconj [tt] jw_p jw_fin jw_y tt.
Proof. exact jw_nonvacuous. Qed.
Print Assumptions history_hypotheses_nonvacuous_and_sensitive.
